#!/usr/bin/env python3
"""Orchestrator of one check run (see DESIGN.md §2.1).

  ./check.py Cxx [--tier quick|thorough] [--replay FILE]

1. rebuilds the harness (and with it the library) from /repo's working tree,
2. re-checks the proof obligations of the property (lake build of the theorem
   module, `#print axioms` audit, forbidden-token scan; thorough: leanchecker),
3. runs the correspondence check (same generated cases through the real
   library and through the compiled Lean model, streams diffed),
4. evaluates the property's own oracle on the implementation's outputs,
5. writes evidence/Cxx.json and prints the verdict.
"""
import concurrent.futures as cf
import hashlib
import json
import os
import re
import shutil
import subprocess
import sys
import time

ROOT = os.path.dirname(os.path.abspath(__file__))
LEAN = os.path.join(ROOT, "lean", "DdsModel")
HARNESS = os.path.join(ROOT, "harness")
SCRATCH = os.path.join(ROOT, ".scratch")
DRIVER = os.path.join(LEAN, ".lake", "build", "bin", "driver")
ALLOWED_AXIOMS = {"propext", "Classical.choice", "Quot.sound"}
FORBIDDEN = [r"\bsorry\b", r"\badmit\b", r"^\s*axiom\s", r"native_decide", r"bv_decide",
             r"implemented_by", r"\bunsafe\s", r"maxHeartbeats\s+0\b", r"@\[extern"]
NCPU = os.cpu_count() or 4
SEARCH_S = float(os.environ.get("DDSV_SEARCH_S", "120"))   # budget of the failing-input search after a broken tie

sys.path.insert(0, os.path.join(ROOT, "tools"))
import props  # noqa: E402  per-property configuration

# Mutation testing only (tools/try_patch.py): DDSV_ALT_REPO=<scratch worktree of /repo> builds a copy of the harness
# against that tree instead of /repo, and DDSV_OUT=<dir> receives evidence/, replays/ and scratch files, so that
# such runs neither touch /repo nor overwrite the evidence of the real tree. Registered commands never set these.
ALT_REPO = os.environ.get("DDSV_ALT_REPO")
OUT = os.environ.get("DDSV_OUT", ROOT)
if ALT_REPO:
    if os.path.abspath(OUT) == ROOT:
        sys.exit("DDSV_ALT_REPO needs DDSV_OUT outside /verif")
    os.makedirs(OUT, exist_ok=True)
    _dst = os.path.join(OUT, "harness")
    subprocess.run(["rsync", "-a", "--delete", "--exclude", "target", HARNESS + "/", _dst + "/"], check=True)
    _ct = open(os.path.join(_dst, "Cargo.toml")).read().replace('path = "/repo"', f'path = "{os.path.abspath(ALT_REPO)}"')
    open(os.path.join(_dst, "Cargo.toml"), "w").write(_ct)
    HARNESS = _dst
    SCRATCH = os.path.join(OUT, ".scratch")


def sh(cmd, cwd=None, env=None, stdin=None, timeout=None):
    e = dict(os.environ)
    e["CARGO_NET_OFFLINE"] = "true"
    if env:
        e.update(env)
    p = subprocess.run(cmd, cwd=cwd, env=e, input=stdin, capture_output=True, text=True,
                       timeout=timeout)
    return p.returncode, p.stdout, p.stderr


def log(msg):
    print(msg, flush=True)


# --------------------------------------------------------------------------
# 1. implementation side
def build_harness(profiles):
    bins = {}
    for prof in profiles:
        cmd = ["cargo", "build", "--offline", "--quiet"]
        cmd += ["--release"] if prof == "release" else ["--profile", prof]
        rc, out, err = sh(cmd, cwd=HARNESS)
        if rc != 0:
            log(err[-4000:])
            log(f"BUILD-FAILURE: the harness/library does not compile in profile {prof}")
            sys.exit(2)
        bins[prof] = os.path.join(HARNESS, "target", prof, "ddsv")
    return bins


# --------------------------------------------------------------------------
# 2. proof obligations
def strip_comments(src):
    # remove block comments (nested not handled beyond one level) and line comments
    src = re.sub(r"/-.*?-/", "", src, flags=re.S)
    src = re.sub(r"--.*", "", src)
    return src


def lean_sources():
    out = []
    for d, _, fs in os.walk(LEAN):
        if ".lake" in d:
            continue
        for f in fs:
            if f.endswith(".lean"):
                out.append(os.path.join(d, f))
    return sorted(out)


def forbidden_scan():
    hits = []
    for f in lean_sources():
        src = strip_comments(open(f).read())
        is_main = os.path.basename(f) == "Main.lean"
        for pat in FORBIDDEN:
            for m in re.finditer(pat, src, flags=re.M):
                hits.append(f"{os.path.relpath(f, LEAN)}: {m.group(0).strip()}")
        if not is_main and re.search(r"^\s*partial\s+def", src, flags=re.M):
            hits.append(f"{os.path.relpath(f, LEAN)}: partial def")
    return hits


def theorem_names(pid):
    path = os.path.join(LEAN, "DdsModel", "Theorems", f"{pid}.lean")
    src = strip_comments(open(path).read())
    return re.findall(r"^theorem\s+([A-Za-z0-9_'.]+)", src, flags=re.M)


# the translator half of the tie: Lean modules regenerated from the library source on every run
TRANSLATOR_NOTES = []
GENERATED = [("extract_consts.py", "SrcConsts.lean"),     # tuning constants (C05, C07, C14, C01)
             ("extract_tables.py", "SrcTables.lean")]     # format / header tables (C09, C18, C19, C01, ...)


def regenerate_sources():
    """the translator half of the tie: DdsModel/SrcConsts.lean (tools/extract_consts.py: tuning constants) and
    DdsModel/SrcTables.lean (tools/extract_tables.py: the format / header tables) are regenerated from the working
    tree on every run, so the theorems that mention them are re-checked for the current values / rows. A file is
    rewritten only when its content changes (the unchanged tree stays a lake no-op). A constants translator
    that cannot parse the source any more is a failure string (reported as a broken correspondence; the last generated
    file is kept); for the table translator see the comment below (fallback to the pinned rows + exhaustive row tie).
    Returns a failure string or None. In ALT mode (mutation runs) a tree whose constants or tables differ from
    /verif's gets a private copy of the Lean project under DDSV_OUT, so concurrent runs do not disturb each other."""
    global LEAN, DRIVER
    repo = ALT_REPO or "/repo"
    fails, changed = [], {}
    TRANSLATOR_NOTES.clear()
    for tool, fname in GENERATED:
        rc, out, err = sh([os.path.join(ROOT, "tools", tool), repo])
        if rc != 0:
            if fname == "SrcTables.lean":
                # The table translator does not recognise the (rewritten) table code. That alone says nothing about
                # the properties: fall back to the tables generated last (those of the committed tree — a pinned
                # model, as before the translator existed) and let the row-by-row comparison of the correspondence
                # run decide: every row of every table is compared with the implementation on each run, so a table
                # that really changed shows up as a disagreement, and a pure refactor stays quiet.
                TRANSLATOR_NOTES.append(f"translator tools/{tool} could not parse the source ({err.strip()[-200:]}); "
                                        "the tables generated last are used as a pinned model and are validated row by row "
                                        "by the correspondence run")
                continue
            fails.append(f"translator tools/{tool}: " + err.strip()[-300:])
            continue
        for l in err.splitlines():
            if l.startswith("FALLBACK "):
                TRANSLATOR_NOTES.append(f"translator tools/{tool}: {l[9:].strip()[-200:]} — the values generated last are used "
                                        "for this group (pinned model)")
        path = os.path.join(LEAN, "DdsModel", fname)
        cur = open(path).read() if os.path.exists(path) else ""
        if out != cur:
            changed[fname] = out
    if changed:
        if ALT_REPO:
            dst = os.path.join(OUT, "lean", "DdsModel")
            os.makedirs(dst, exist_ok=True)
            subprocess.run(["rsync", "-a", "--delete", LEAN + "/", dst + "/"], check=True)
            LEAN = dst
            DRIVER = os.path.join(LEAN, ".lake", "build", "bin", "driver")
        for fname, out in changed.items():
            open(os.path.join(LEAN, "DdsModel", fname), "w").write(out)
    return "; ".join(fails) or None


def proofs(pid, tier):
    """returns dict(obligations, discharged, failures[], axioms{}, checker_cmd)"""
    res = {"obligations": 0, "discharged": 0, "failures": [], "axioms": {}, "theorems": []}
    tr = regenerate_sources()
    mods = [f"DdsModel.Theorems.{pid}", "driver"]
    cmd = ["lake", "build"] + mods
    res["checker_cmd"] = "cd lean/DdsModel && " + " ".join(cmd) + \
        f" && lake env lean <audit of #print axioms for every theorem of Theorems/{pid}.lean>"
    t0 = time.time()
    rc, out, err = sh(cmd, cwd=LEAN, timeout=7200)
    res["lake_build_s"] = round(time.time() - t0, 1)
    names = theorem_names(pid)
    res["obligations"] = len(names)
    res["theorems"] = names
    if tr:
        res["failures"].append(tr)
    if rc != 0:
        # find which theorems fail: lake prints `error: file:line:col: ...`
        res["failures"].append("lake build failed: " + (out + err)[-3000:])
        return res
    hits = forbidden_scan()
    if hits:
        res["failures"].append("forbidden tokens: " + "; ".join(hits[:10]))
        return res
    os.makedirs(SCRATCH, exist_ok=True)
    audit = os.path.join(SCRATCH, f"Audit_{pid}.lean")
    with open(audit, "w") as f:
        f.write(f"import DdsModel.Theorems.{pid}\n")
        for n in names:
            f.write(f"#print axioms Dds.{pid}.{n}\n")
    rc, out, err = sh(["lake", "env", "lean", audit], cwd=LEAN, timeout=3600)
    if rc != 0:
        res["failures"].append("audit failed: " + (out + err)[-2000:])
        return res
    # parse: "'Dds.C02.foo' depends on axioms: [propext, Quot.sound]" / "does not depend on any axioms"
    text = out.replace("\n ", " ")
    for n in names:
        q = f"Dds.{pid}.{n}"
        m = re.search(r"'" + re.escape(q) + r"' (does not depend on any axioms|depends on axioms: \[([^\]]*)\])",
                      text, flags=re.S)
        if not m:
            res["failures"].append(f"no audit line for {q}")
            continue
        axs = [] if m.group(2) is None else [a.strip() for a in m.group(2).replace("\n", " ").split(",") if a.strip()]
        res["axioms"][n] = axs
        if set(axs) <= ALLOWED_AXIOMS:
            res["discharged"] += 1
        else:
            res["failures"].append(f"{q} depends on inadmissible axioms {axs}")
    if tier == "thorough":
        rc, out, err = sh(["lake", "env", "leanchecker", f"DdsModel.Theorems.{pid}"], cwd=LEAN, timeout=7200)
        res["leanchecker_rc"] = rc
        if rc != 0:
            res["failures"].append("leanchecker rejected the theorem module: " + (out + err)[-1500:])
    return res


# --------------------------------------------------------------------------
# 3./4. correspondence + oracle
def run_stream(cmd, lines):
    """run cmd over `lines` in parallel chunks; returns (results{n:str}, oracle{n:[str]})"""
    n = len(lines)
    if n == 0:
        return {}, {}
    k = max(1, min(NCPU, n // 500 + 1))
    size = (n + k - 1) // k
    chunks = [(i, lines[i:i + size]) for i in range(0, n, size)]

    def work(ch):
        base, ls = ch
        R, O = {}, {}
        restarts = 0
        while ls:
            p = subprocess.run(cmd, input="\n".join(ls) + "\n", capture_output=True, text=True)
            got = -1
            for ln in p.stdout.splitlines():
                if ln.startswith("R "):
                    _, i, rest = (ln.split(" ", 2) + [""])[:3]
                    R[base + int(i)] = rest
                    got = max(got, int(i))
                elif ln.startswith("O "):
                    _, i, rest = (ln.split(" ", 2) + [""])[:3]
                    O.setdefault(base + int(i), []).append(rest)
            if p.returncode == 0:
                break
            # the process died (abort / stack overflow / alloc failure / third hang): blame the first case without
            # a result — unless the last reported case was a hang (the watchdog aborts after the third) — and go on
            # with the cases behind it
            nxt = got + 1
            if nxt < len(ls) and not (got >= 0 and R.get(base + got) == "hang"):
                R[base + nxt] = f"process-died rc={p.returncode}"
                O.setdefault(base + nxt, []).append(f"process died (rc={p.returncode}) {p.stderr[-300:]!r}")
                nxt += 1
            restarts += 1
            hangs = sum(1 for v in R.values() if v == "hang")
            base, ls = base + nxt, ls[nxt:]
            if restarts > 40 or hangs >= 3:
                # enough evidence from this chunk; do not spend a watchdog period on every further case
                for j in range(len(ls)):
                    R[base + j] = "not-run-after-hangs"
                break
        return R, O

    R, O = {}, {}
    with cf.ThreadPoolExecutor(max_workers=k) as ex:
        for r, o in ex.map(work, chunks):
            R.update(r)
            O.update(o)
    return R, O


def canonical_equal(pid, a, b, case=None):
    cmp = getattr(props, f"equal_{pid}", None)
    if not cmp:
        return a == b
    # a hook may take the case line as a third argument
    return cmp(a, b, case) if cmp.__code__.co_argcount >= 3 else cmp(a, b)


def write_replay(pid, kind, payload):
    os.makedirs(os.path.join(OUT, "replays"), exist_ok=True)
    blob = json.dumps(payload, sort_keys=True)
    h = hashlib.sha1(blob.encode()).hexdigest()[:12]
    path = os.path.join(OUT, "replays", f"{pid}-{kind}-{h}.json")
    with open(path, "w") as f:
        json.dump(payload, f, indent=1, sort_keys=True)
    return path


def load_known():
    p = os.path.join(ROOT, "known_findings.json")
    if not os.path.exists(p):
        return []
    return json.load(open(p)).get("findings", [])


def matches_known(pids, case, oracle_msgs, known):
    """a case is covered by the known findings only if EVERY oracle message of it matches an open finding"""
    first = None
    for o in oracle_msgs:
        hit = None
        for k in known:
            if k.get("property") not in pids or k.get("status") != "open":
                continue
            if re.search(k["case_regex"], case) and re.search(k["oracle_regex"], o):
                hit = k
                break
        if hit is None:
            return None
        first = first or hit
    return first


def run_one(pid, report_pid, tier, seed, replay_payload):
    """runs the whole pipeline of one (sub-)check; returns (exit_code, evidence dict, lines to print)"""
    out_lines = []
    cfg = props.PROPS[pid]
    t0 = time.time()
    os.makedirs(os.path.join(SCRATCH, pid), exist_ok=True)

    profiles = cfg.get("profiles", ["release"])
    bins = build_harness(profiles)
    pr = proofs(pid, tier)

    # cases
    if replay_payload is not None:
        cases = replay_payload.get("cases") or [replay_payload["case"]]
    else:
        corpus = []
        cdir = os.path.join(ROOT, "corpus", pid)
        if os.path.isdir(cdir):
            for f in sorted(os.listdir(cdir)):
                corpus += [l.strip() for l in open(os.path.join(cdir, f)) if l.strip() and not l.startswith("#")]
        rc, out, err = sh([bins[profiles[0]], "gen", pid, str(seed), tier])
        if rc != 0:
            log(err[-2000:])
            log("GEN-FAILURE")
            sys.exit(2)
        cases = corpus + [l for l in out.splitlines() if l.strip()]

    # model stream
    model = {}
    if os.path.exists(DRIVER):
        model, _ = run_stream([DRIVER, pid], cases)
    impl = {}
    oracle = {}
    for k_, v_ in cfg.get("env", {}).items():
        os.environ[k_] = v_
    for prof in profiles:
        R, O = run_stream([bins[prof], "impl", pid], cases)
        impl[prof] = R
        for n, msgs in O.items():
            oracle.setdefault(n, [])
            oracle[n] += [f"[{prof}] {m}" for m in msgs]

    # compare
    disagreements = []
    for prof in profiles:
        for n in range(len(cases)):
            a = impl[prof].get(n)
            b = model.get(n)
            if a is None or b is None or not canonical_equal(pid, a, b, cases[n]):
                disagreements.append((n, prof, a, b))
    # evidence statistics
    nontrivial = getattr(props, f"nontrivial_{pid}", lambda c, r: not r.startswith("err") and r != "bad-case")
    classify = getattr(props, f"classify_{pid}", lambda c, r: " ".join(r.split(" ")[:2]))
    first = impl[profiles[0]]
    distinct = set()
    hist = {}
    for n, c in enumerate(cases):
        r = first.get(n, "missing")
        cl = classify(c, r)
        hist[cl] = hist.get(cl, 0) + 1
        if nontrivial(c, r):
            distinct.add(c)
    # a generated case that both sides refuse to parse compares equal ("bad-case" = "bad-case") and tests nothing:
    # counted, written to the evidence and printed, so that a generator slip cannot hide behind the diff
    bad_cases = [c for n, c in enumerate(cases) if (first.get(n) or "").startswith("bad-case")]
    if bad_cases:
        out_lines.append(f"note: {len(bad_cases)} generated case(s) are rejected as bad-case by the harness, e.g. {bad_cases[0][:160]}")
    samples = []
    step = max(1, len(cases) // 5)
    for n in range(0, len(cases), step):
        samples.append({"case": cases[n][:600], "impl": (first.get(n) or "")[:600], "model": (model.get(n) or "")[:600]})

    known = load_known()
    violations = []
    known_hits = []
    seen_known = set()
    for n in sorted(oracle):
        k = matches_known((pid, report_pid), cases[n], oracle[n], known)
        if k:
            if k["id"] not in seen_known:
                seen_known.add(k["id"])
                known_hits.append((k, cases[n], oracle[n]))
            continue
        violations.append(("oracle", n))

    # search for a failing input (DESIGN §2.1 step 5): the tie or a proof obligation broke but the oracle found nothing
    # on this tier's cases -> before reporting `no-failing-input-found`, run the property's oracle on the real
    # library over further generated inputs (the thorough generator and fresh seeds, the kinds of the disagreeing
    # cases first) within a time budget. A hit becomes the replay of an ordinary VIOLATION.
    search = None
    broke = bool(disagreements or pr["failures"] or pr["discharged"] != pr["obligations"])
    if broke and not violations and replay_payload is None and SEARCH_S > 0:
        t_s = time.time()
        kinds = {cases[n].split(" ", 1)[0] for n, _, _, _ in disagreements}
        tried = 0
        rate = max(50.0, len(cases) * len(profiles) / max(0.5, time.time() - t0))   # cases/s seen so far (upper bound)
        found = None
        for rnd, (s_seed, s_tier) in enumerate([(seed, "thorough"), (seed + 1, "quick"), (seed + 2, "thorough")]):
            left = SEARCH_S - (time.time() - t_s)
            if left <= 5 or found:
                break
            rc, out, err = sh([bins[profiles[0]], "gen", pid, str(s_seed), s_tier])
            if rc != 0:
                break
            have = set(cases)
            extra = [l for l in out.splitlines() if l.strip() and l not in have]
            extra.sort(key=lambda l: 0 if l.split(" ", 1)[0] in kinds else 1)    # stable: disagreeing kinds first
            budget = int(rate * left / len(profiles))
            extra = extra[:max(200, budget)]
            for prof in profiles:
                R, O = run_stream([bins[prof], "impl", pid], extra)
                tried += len(extra)
                for n in sorted(O):
                    msgs = [f"[{prof}] {m}" for m in O[n]]
                    if not matches_known((pid, report_pid), extra[n], msgs, known):
                        found = (extra[n], msgs, prof, R.get(n))
                        break
                if found:
                    break
        search = {"ran": True, "cases_tried": tried, "seconds": round(time.time() - t_s, 1), "found": bool(found)}
        if found:
            case, msgs, prof, r = found
            mres, _ = run_stream([DRIVER, pid], [case]) if os.path.exists(DRIVER) else ({}, {})
            path = write_replay(report_pid, "oracle", {
                "property": report_pid, "check": pid,
                "kind": "implementation violates the property on this input (found by the search that follows a broken "
                        "correspondence / proof obligation)",
                "case": case, "oracle": msgs, "impl": {prof: r}, "model": mres.get(0),
                "broken_correspondence_case": cases[disagreements[0][0]] if disagreements else None,
                "proof_failures": pr["failures"],
                "replay_cmd": f"./check.py {report_pid} --replay <this file>",
            })
            out_lines.append(f"VIOLATION property={report_pid} replay={path}")

    exit_code = 0
    if search and search["found"]:
        exit_code = 1
    elif violations:
        n = violations[0][1]
        path = write_replay(report_pid, "oracle", {
            "property": report_pid, "check": pid, "kind": "implementation violates the property on this input",
            "case": cases[n], "oracle": oracle[n],
            "impl": {p: impl[p].get(n) for p in profiles}, "model": model.get(n),
            "all_failing_cases": [cases[m] for _, m in violations[:50]],
            # a theorem that no longer builds for the regenerated constants / tables is named beside the failing input
            **({"proof_failures": [x[-1500:] for x in pr["failures"]]} if pr["failures"] else {}),
            "replay_cmd": f"./check.py {report_pid} --replay <this file>",
        })
        out_lines.append(f"VIOLATION property={report_pid} replay={path}")
        exit_code = 1
    elif disagreements or pr["failures"] or pr["discharged"] != pr["obligations"] or pr["obligations"] == 0:
        payload = {"property": report_pid, "check": pid,
                   "kind": "proof obligation or correspondence no longer checks; "
                           "no failing input found by the oracle on this run's cases"}
        if pr["failures"] or pr["discharged"] != pr["obligations"] or pr["obligations"] == 0:
            payload["proof_failures"] = pr["failures"] or ["not all obligations discharged"]
            payload["theorems"] = pr["theorems"]
        if disagreements:
            n, prof, a, b = disagreements[0]
            payload["correspondence"] = f"stream {pid} ({prof} profile): model and implementation differ"
            payload["case"] = cases[n]
            payload["impl"] = a
            payload["model"] = b
            payload["n_disagreements"] = len(disagreements)
            payload["more_cases"] = [cases[m] for m, _, _, _ in disagreements[1:20]]
        path = write_replay(report_pid, "tie", payload)
        out_lines.append(f"VIOLATION property={report_pid} replay={path} no-failing-input-found")
        exit_code = 1
    for k, case, msgs in known_hits:
        out_lines.append(f"KNOWN-FINDING: property={report_pid} {k['id']}: {k['what']}")
    for n in TRANSLATOR_NOTES:
        out_lines.append("note: " + n)

    wall = round(time.time() - t0, 2)
    cov = {
        "obligations": pr["obligations"],
        "discharged": pr["discharged"],
        "checker_cmd": pr["checker_cmd"],
        "trusted_base": cfg.get("trusted_base", []),
        "theorems": pr["theorems"],
        "axioms_per_theorem": pr["axioms"],
        "lake_build_s": pr.get("lake_build_s"),
        "evaluations": len(cases) * len(profiles),
        "distinct_nontrivial": len(distinct),
        "rule": cfg.get("rule", ""),
        "samples": samples,
        "disagreements_checked": len(disagreements),
        "oracle_failures": len(oracle),
        "known_findings_matched": [k["id"] for k, _, _ in known_hits],
        "failing_input_search": search or {"ran": False},
        "translator_notes": list(TRANSLATOR_NOTES),
        "bad_cases": len(bad_cases),
        "profiles": profiles,
        "class_histogram": dict(sorted(hist.items(), key=lambda kv: -kv[1])[:60]),
        "explanation": cfg.get("explanation", ""),
    }
    out_lines.append(
        f"{pid} {tier}: obligations {pr['discharged']}/{pr['obligations']}, cases {len(cases)} x {len(profiles)} profile(s), "
        f"disagreements {len(disagreements)}, oracle failures {len(oracle)}, {wall}s -> {'FAIL' if exit_code else 'ok'}")
    return exit_code, cov, cfg, out_lines


def main():
    args = sys.argv[1:]
    if not args:
        print(__doc__)
        sys.exit(2)
    pid = args[0]
    tier = os.environ.get("VERIF_TIER", "quick")
    replay = None
    i = 1
    while i < len(args):
        if args[i] == "--tier":
            tier = args[i + 1]
            i += 2
        elif args[i] == "--replay":
            replay = args[i + 1]
            i += 2
        else:
            i += 1
    seed = int(os.environ.get("VERIF_SEED", "1"))
    t0 = time.time()
    os.makedirs(os.path.join(OUT, "evidence"), exist_ok=True)
    top = props.PROPS[pid]
    subs = [pid] + top.get("sub_checks", [])
    replay_payload = json.load(open(replay)) if replay else None
    if replay_payload is not None and replay_payload.get("check") in subs:
        subs = [replay_payload["check"]]

    exit_code = 0
    covs = []
    for sp in subs:
        rc, cov, cfg, lines = run_one(sp, pid, tier, seed, replay_payload)
        for ln in lines:
            log(ln)
        exit_code = max(exit_code, rc)
        covs.append((sp, cov, cfg))

    # combined evidence (the parent's keys; sub-checks are merged in and also kept separately)
    cov = dict(covs[0][1])
    cov["trusted_base"] = list(cov["trusted_base"])
    cov["theorems"] = {covs[0][0]: cov["theorems"]}
    cov["axioms_per_theorem"] = {covs[0][0]: cov["axioms_per_theorem"]}
    cov["class_histogram"] = {f"{covs[0][0]}: {k}": v for k, v in cov["class_histogram"].items()}
    assumptions = list(top.get("assumptions", []))
    for sp, c, cfg in covs[1:]:
        for key in ("obligations", "discharged", "evaluations", "distinct_nontrivial", "disagreements_checked",
                    "oracle_failures"):
            cov[key] += c[key]
        cov["samples"] = cov["samples"] + c["samples"]
        cov["trusted_base"] += [t for t in c["trusted_base"] if t not in cov["trusted_base"]]
        cov["theorems"][sp] = c["theorems"]
        cov["axioms_per_theorem"][sp] = c["axioms_per_theorem"]
        cov["known_findings_matched"] = cov["known_findings_matched"] + c["known_findings_matched"]
        cov["rule"] += f" || sub-check {sp}: " + c["rule"]
        cov["checker_cmd"] += " ; " + c["checker_cmd"]
        cov["class_histogram"].update({f"{sp}: {k}": v for k, v in c["class_histogram"].items()})
        assumptions += [a for a in cfg.get("assumptions", []) if a not in assumptions]
    cov["trusted_base"] += [
        "Lean 4.33.0 kernel; axioms admitted: propext, Classical.choice, Quot.sound (audited by #print axioms this run)",
        "hand-written Lean model tied to /repo by this run's correspondence check (harness/, Drv/, check.py)",
        "rustc 1.95 x86-64, 64-bit usize, little endian",
    ]
    cov["exhaustive"] = False
    ev = {
        "property_id": pid,
        "tier": tier if tier in ("quick", "thorough") else "quick",
        "seed": seed,
        "level": top.get("level", "proof"),
        "coverage": cov,
        "assumptions": assumptions,
        "wall_s": round(time.time() - t0, 2),
        "violations": 1 if exit_code else 0,
    }
    if replay is None:
        with open(os.path.join(OUT, "evidence", f"{pid}.json"), "w") as f:
            json.dump(ev, f, indent=1)
    if replay and exit_code == 0:
        log("replay: the recorded case no longer fails")
    sys.exit(exit_code)


if __name__ == "__main__":
    main()
