// C01 candidate: `ChannelConversionBuffer::process_blocks` computes `chunk_start + preferred_chunk_size` in u32
// (src/decode/read_write.rs:853).  Full decode of a block / sub-sampled format into a colour whose channels differ from
// the native ones, image width within `preferred_chunk_size` of u32::MAX.
use dds::*;
use std::io::Read;

fn main() {
    let args: Vec<String> = std::env::args().collect();
    let width: u32 = args.get(1).map(|s| s.parse().unwrap()).unwrap_or(u32::MAX);
    let format = Format::R1_UNORM; // 8x1 blocks of 1 byte; native colour Grayscale
    let color = ColorFormat::new(Channels::Alpha, Precision::U8); // 1 byte per pixel, channels != native
    let size = Size::new(width, 1);
    let mut out = vec![0u8; width as usize];
    let image = ImageViewMut::new(&mut out, size, color).expect("view");
    let mut options = DecodeOptions::default();
    options.memory_limit = usize::MAX;
    let mut reader = std::io::repeat(0u8).take(1 << 30);
    let r = std::panic::catch_unwind(std::panic::AssertUnwindSafe(|| {
        decode(&mut reader, image, format, &options)
    }));
    match r {
        Ok(Ok(())) => println!("width {width}: Ok"),
        Ok(Err(e)) => println!("width {width}: Err({e:?})"),
        Err(_) => println!("width {width}: PANIC"),
    }
}
