#!/bin/sh
# Builds the framework offline from files on disk: Lean library (all proofs), driver, harness.
set -e
cd "$(dirname "$0")"
export CARGO_NET_OFFLINE=true
# the generated Lean modules (translator half of the tie; check.py regenerates them on every run as well)
for g in consts:SrcConsts tables:SrcTables; do
  f="lean/DdsModel/DdsModel/${g##*:}.lean"; t=$(mktemp)
  if "tools/extract_${g%%:*}.py" /repo > "$t"; then cmp -s "$t" "$f" || cp "$t" "$f"
  else echo "setup: tools/extract_${g%%:*}.py failed; keeping the committed $f" >&2; fi
  rm -f "$t"
done
(cd lean/DdsModel && lake build DdsModel driver)
(cd harness && cargo build --offline --release --quiet && cargo build --offline --profile checked --quiet)
echo setup-ok
