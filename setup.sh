#!/bin/sh
# Builds the framework offline from files on disk: Lean library (all proofs), driver, harness.
set -e
cd "$(dirname "$0")"
export CARGO_NET_OFFLINE=true
(cd lean/DdsModel && lake build DdsModel driver)
(cd harness && cargo build --offline --release --quiet && cargo build --offline --profile checked --quiet)
echo setup-ok
